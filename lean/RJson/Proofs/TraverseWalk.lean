import RJson.Proofs.Traverse
import RJson.Spec.Values
/-!
# The handler machines: the whole traversal

`arrWalk` / `objWalk` are the specification of a traversal *with* its handler: members are found with the
reference scanner, the handler is called once on each (first byte of the value; raw key bytes), a handler error
stops the traversal. The abstract machines `.harr` / `.hobj` compute exactly that for every well-behaved handler.
-/
namespace RJson.Abs
open RJson.Ragel RJson.Spec RJson.HelpersSpec

inductive TOut (τ : Type)
  | bad
  | herr (hs : τ) (calls : Nat) (id : Nat)
  | done (hs : τ) (calls : Nat) (rest : List UInt8)

def stepMember {τ} (m : MOut τ) (calls : Nat) (cont : τ → Nat → List UInt8 → TOut τ) : TOut τ :=
  match m with
  | .bad => .bad
  | .herr hs' id => .herr hs' (calls + 1) id
  | .next hs' r => cont hs' (calls + 1) r

/-- members of an array body (after `[`) with the handler -/
def arrWalk {τ} (h : Handler τ) : Nat → Bool → List UInt8 → τ → Nat → TOut τ
  | 0, _, _, _, _ => .bad
  | fuel+1, first, l, hs, calls =>
    match skipWs l with
    | [] => .bad
    | b :: rest =>
      if b == 93 then .done hs calls rest
      else if first then stepMember (memberOut h #[] (b :: rest) hs) calls (fun hs' n r => arrWalk h fuel false r hs' n)
      else if b == 44 then stepMember (memberOut h #[] (skipWs rest) hs) calls (fun hs' n r => arrWalk h fuel false r hs' n)
      else .bad

/-- after the key and whitespace: colon, member -/
def colonMember {τ} (h : Handler τ) (body : List UInt8) (hs : τ) (calls : Nat) (cont : τ → Nat → List UInt8 → TOut τ) :
    List UInt8 → TOut τ
  | 58 :: r2 => stepMember (memberOut h body.toArray (skipWs r2) hs) calls cont
  | _ => .bad

def keyMember {τ} (h : Handler τ) (hs : τ) (calls : Nat) (cont : τ → Nat → List UInt8 → TOut τ) : List UInt8 → TOut τ
  | 34 :: k =>
    match splitString k with
    | none => .bad
    | some (body, r1) => colonMember h body hs calls cont (skipWs r1)
  | _ => .bad

/-- members of an object body (after `{`) with the handler -/
def objWalk {τ} (h : Handler τ) : Nat → Bool → List UInt8 → τ → Nat → TOut τ
  | 0, _, _, _, _ => .bad
  | fuel+1, first, l, hs, calls =>
    match skipWs l with
    | [] => .bad
    | b :: rest =>
      if b == 125 then .done hs calls rest
      else if first then keyMember h hs calls (fun hs' n r => objWalk h fuel false r hs' n) (b :: rest)
      else if b == 44 then keyMember h hs calls (fun hs' n r => objWalk h fuel false r hs' n) (skipWs rest)
      else .bad

/-- what a result of the machine has to look like for an outcome of the specification -/
def WalkRes {τ} (data : Bytes) (res : Result τ) : TOut τ → Prop
  | .bad => IsErr res
  | .herr hs' n id => res.kind = .herr id ∧ res.hs = hs' ∧ res.ncalls = n
  | .done hs' n rest => res.kind = .ok ∧ res.hs = hs' ∧ res.ncalls = n ∧ ∃ p' : Nat, At data p' rest ∧ res.p = (p' : Int)

theorem WalkRes.after_reach {τ} {M : PDM AS} {data : Bytes} {h : Handler τ} {fuel : Nat} {s : AS} {st : List AS} {r : Regs τ}
    {mid : List UInt8} {s1 : AS} {st1 : List AS} {o : TOut τ}
    (h1 : Reach M data h fuel s st r mid s1 st1)
    (h2 : ∀ (fuel' p' : Nat), At data p' mid → mid.length + 1 ≤ fuel' →
      WalkRes data (contL M data h fuel' s1 st1 { r with p := (p' : Int) }) o) :
    WalkRes data (contL M data h fuel s st r) o := by
  obtain ⟨f1, p1, hat1, hf1, e1⟩ := h1
  rw [e1]
  exact h2 f1 p1 hat1 hf1

/-- the end of a traversal: `⟨hTop, done⟩` finishes at once -/
theorem done_finish {τ} (k : Kind) (data : Bytes) (h : Handler τ) (fuel p : Nat) (r : Regs τ) (rest : List UInt8)
    (hat : At data p rest) (hp : r.p = p) (hf : rest.length + 1 ≤ fuel) :
    contL (machine k) data h fuel ⟨.hTop, .done⟩ [] r = r.finish := by
  cases rest with
  | nil =>
    rw [contL_nil (machine k) data h _ _ _ r p hp hat]
    rfl
  | cons b t =>
    rw [contL_cons (machine k) data h _ _ _ r p b t hp hat]
    obtain ⟨hb, _, _⟩ := hat.cons_inv
    obtain ⟨fuel, rfl⟩ : ∃ f, fuel = f + 1 := ⟨fuel - 1, by omega⟩
    exact loopL_exit (machine k) data h fuel _ [] r b (by rw [hp]; exact hb) rfl

theorem walk_done {τ} (k : Kind) (data : Bytes) (h : Handler τ) (hsm : Small data) (fuel p : Nat) (s : AS) (r : Regs τ)
    (b : UInt8) (rest : List UInt8) (hat : At data p (b :: rest)) (hp : r.p = p) (herr : r.err = none)
    (hf : (b :: rest).length + 1 ≤ fuel) (hstep : (machine k).step s b = ([], some ⟨.hTop, .done⟩)) :
    WalkRes data (contL (machine k) data h fuel s [] r) (.done r.hs r.ncalls rest) := by
  obtain ⟨fuel, rfl⟩ : ∃ f, fuel = f + 1 := ⟨fuel - 1, by omega⟩
  obtain ⟨_, _, hat'⟩ := hat.cons_inv
  rw [contL_cons (machine k) data h _ _ _ r p b rest hp hat,
    loopL_goto (machine k) data h fuel _ _ [] r p b rest hsm hp hat hstep,
    done_finish k data h fuel (p + 1) _ rest hat' rfl (by simp only [List.length_cons] at hf; omega)]
  exact ⟨by simp [Regs.finish, herr], rfl, rfl, p + 1, hat', rfl⟩

theorem memberOut_next_inv {τ} (h : Handler τ) (field : Bytes) (v : List UInt8) (hs hs' : τ) (r : List UInt8)
    (hm : memberOut h field v hs = .next hs' r) : scanValue none (2 * v.length + 2) 0 v = some r := by
  cases v with
  | nil => simp [memberOut] at hm
  | cons b rest =>
    simp only [memberOut] at hm
    split at hm
    · cases hm
    · split at hm
      · cases hm
      · split at hm
        · cases hm
        · next hsv => injection hm with _ h2; subst h2; exact hsv

/-- handler arguments of the array traversal: no field -/
theorem hargs_arr {τ} (data : Bytes) (p : Nat) (v : List UInt8) (hat : At data p v) (r : Regs τ) (hp : r.p = p) :
    handlerArgs data (machine .harr).hasField (hFlo .harr) (hFhi .harr) r = some (#[], v.toArray) := by
  have hf : (machine .harr).hasField = false := rfl
  simp only [handlerArgs, hf, hp, suffix_at hat, Bool.false_eq_true, if_false]

/-- one member of the array traversal, then whatever `cont` specifies -/
theorem arr_member_then {τ} (h : Handler τ) (hwb : WB h) (data : Bytes) (hsm : Small data)
    (cont : τ → Nat → List UInt8 → TOut τ) (wfuel : Nat)
    (hcont : ∀ (l : List UInt8) (fuel p : Nat) (r : Regs τ), At data p l → r.p = p → r.err = none → l.length + 1 ≤ fuel →
      l.length + 1 ≤ wfuel → WalkRes data (contL (machine .harr) data h fuel ⟨.hArr, .after⟩ [] r) (cont r.hs r.ncalls l))
    (s : AS) (b : UInt8) (rest : List UInt8) (hstep : (machine .harr).step s b = startValue .harr .hArr b)
    (fuel p : Nat) (r : Regs τ) (hat : At data p (b :: rest)) (hp : r.p = p) (herr : r.err = none)
    (hf : (b :: rest).length + 1 ≤ fuel) (hwf : (b :: rest).length ≤ wfuel) :
    WalkRes data (contL (machine .harr) data h fuel s [] r) (stepMember (memberOut h #[] (b :: rest) r.hs) r.ncalls cont) := by
  have key := member_run .harr rfl .hArr rfl (by decide) rfl h hwb data hsm s b rest hstep #[] fuel p r hat hp herr
    (hargs_arr data p _ hat r hp) hf
  cases hm : memberOut h #[] (b :: rest) r.hs with
  | bad => rw [hm] at key; exact key
  | herr hs' id => rw [hm] at key; exact key
  | next hs' r' =>
    rw [hm] at key
    simp only [MemberGoal] at key
    obtain ⟨f2, p2, hat2, hf2, e2⟩ := key
    simp only [stepMember]
    rw [e2]
    have hlt := (scan_progress none _).1 _ _ _ (memberOut_next_inv h _ _ _ _ _ hm)
    exact hcont r' f2 p2 _ hat2 rfl rfl hf2 (by omega)

def ArrWalkGoal {τ} (h : Handler τ) (data : Bytes) (wfuel : Nat) : Prop :=
  ∀ (first : Bool) (l : List UInt8) (fuel p : Nat) (r : Regs τ), At data p l → r.p = p → r.err = none → l.length + 1 ≤ fuel →
    l.length + 1 ≤ wfuel →
    WalkRes data (contL (machine .harr) data h fuel ⟨.hArr, if first then .want true else .after⟩ [] r)
      (arrWalk h wfuel first l r.hs r.ncalls)

theorem arr_walk {τ} (h : Handler τ) (hwb : WB h) (data : Bytes) (hsm : Small data) : ∀ wfuel, ArrWalkGoal h data wfuel := by
  intro wfuel
  induction wfuel with
  | zero => intro first l fuel p r _ _ _ _ hw; omega
  | succ wfuel ih =>
    intro first l fuel p r hat hp herr hf hwf
    simp only [arrWalk]
    have hws : ∀ b, isWs b = true → (machine .harr).step ⟨.hArr, if first then .want true else .after⟩ b =
        ([], some ⟨.hArr, if first then .want true else .after⟩) := by
      intro b hw
      cases first <;> simp [machine, step, afterTr, hw]
    have hnf : isFinal ⟨.hArr, if first then .want true else .after⟩ = false := by cases first <;> rfl
    apply WalkRes.after_reach (ws_loop (machine .harr) _ hws data h hsm l fuel p [] r hat hp hf)
    intro f1 p1 hat1 hf1
    have hlen := skipWs_length_le' l
    have hcont : ∀ (l' : List UInt8) (fuel p : Nat) (r : Regs τ), At data p l' → r.p = p → r.err = none → l'.length + 1 ≤ fuel →
        l'.length + 1 ≤ wfuel →
        WalkRes data (contL (machine .harr) data h fuel ⟨.hArr, .after⟩ [] r) (arrWalk h wfuel false l' r.hs r.ncalls) := by
      intro l' fuel p r hat hp herr hf hw
      have := ih false l' fuel p r hat hp herr hf hw
      simpa using this
    cases hsk : skipWs l with
    | nil =>
      rw [hsk] at hat1
      simp only [WalkRes]
      rw [contL_nil (machine .harr) data h _ _ _ _ p1 rfl hat1]
      exact eof_stops .harr _ data h _ hnf
    | cons b rest =>
      rw [hsk] at hat1 hf1 hlen
      have hnws := skipWs_cons_of l b rest hsk
      simp only []
      by_cases h93 : (b == 93) = true
      · have hb93 : b = 93 := by simpa using h93
        subst hb93
        simp only [beq_self_eq_true, if_true]
        have hstep : (machine .harr).step ⟨.hArr, if first then .want true else .after⟩ 93 = ([], some ⟨.hTop, .done⟩) := by
          cases first <;> simp [machine, step, afterTr, isWs]
        exact walk_done .harr data h hsm f1 p1 _ ({ r with p := (p1 : Int) } : Regs τ) 93 rest hat1 rfl herr hf1 hstep
      · have h93' : (b == 93) = false := by simpa using h93
        simp only [h93', Bool.false_eq_true, if_false]
        cases first with
        | true =>
          simp only [if_true]
          have hstep : (machine .harr).step ⟨.hArr, .want true⟩ b = startValue .harr .hArr b := by
            simp [machine, step, hnws, h93']
          exact arr_member_then h hwb data hsm _ wfuel hcont _ b rest hstep f1 p1 ({ r with p := (p1 : Int) } : Regs τ) hat1 rfl herr hf1
            (by simp only [List.length_cons] at hlen ⊢; omega)
        | false =>
          simp only [Bool.false_eq_true, if_false]
          by_cases h44 : (b == 44) = true
          · have hb44 : b = 44 := by simpa using h44
            subst hb44
            simp only [beq_self_eq_true, if_true]
            obtain ⟨f1, rfl⟩ : ∃ f, f1 = f + 1 := ⟨f1 - 1, by omega⟩
            obtain ⟨_, _, hat'⟩ := hat1.cons_inv
            have hstep : (machine .harr).step ⟨.hArr, .after⟩ 44 = ([], some ⟨.hArr, .want false⟩) := by
              simp [machine, step, afterTr, isWs]
            rw [contL_cons (machine .harr) data h _ _ _ _ p1 44 rest rfl hat1,
              loopL_goto (machine .harr) data h f1 _ _ [] _ p1 44 rest hsm rfl hat1 hstep]
            have hws2 : ∀ b, isWs b = true → (machine .harr).step ⟨.hArr, .want false⟩ b = ([], some ⟨.hArr, .want false⟩) := by
              intro b hw; simp [machine, step, hw]
            apply WalkRes.after_reach (ws_loop (machine .harr) _ hws2 data h hsm rest f1 (p1 + 1) []
              ({ r with p := ((p1 + 1 : Nat) : Int) } : Regs τ) hat' rfl (by simp only [List.length_cons] at hf1; omega))
            intro f3 p3 hat3 hf3
            have hlen3 := skipWs_length_le' rest
            cases hsk3 : skipWs rest with
            | nil =>
              rw [hsk3] at hat3
              simp only [memberOut, stepMember, WalkRes]
              rw [contL_nil (machine .harr) data h _ _ _ _ p3 rfl hat3]
              exact eof_stops .harr _ data h _ rfl
            | cons d t =>
              rw [hsk3] at hat3 hf3 hlen3
              have hnws3 := skipWs_cons_of rest d t hsk3
              have hstep3 : (machine .harr).step ⟨.hArr, .want false⟩ d = startValue .harr .hArr d := by
                simp [machine, step, hnws3]
              exact arr_member_then h hwb data hsm _ wfuel hcont _ d t hstep3 f3 p3 ({ r with p := (p3 : Int) } : Regs τ) hat3 rfl herr hf3
                (by simp only [List.length_cons] at hlen hlen3 ⊢; omega)
          · have h44' : (b == 44) = false := by simpa using h44
            simp only [h44', Bool.false_eq_true, if_false, WalkRes]
            obtain ⟨f1, rfl⟩ : ∃ f, f1 = f + 1 := ⟨f1 - 1, by omega⟩
            obtain ⟨hb, _, _⟩ := hat1.cons_inv
            have hstep : (machine .harr).step ⟨.hArr, .after⟩ b = errTr .harr .hArr := by
              simp [machine, step, afterTr, hnws, h44', h93']
            rw [contL_cons (machine .harr) data h _ _ _ _ p1 b rest rfl hat1]
            exact errTr_stops .harr .hArr data h f1 _ [] _ b hb hstep

/-! ## objects -/

theorem keyMember_34 {τ} (h : Handler τ) (hs : τ) (calls : Nat) (cont : τ → Nat → List UInt8 → TOut τ) (k : List UInt8) :
    keyMember h hs calls cont (34 :: k) =
      match splitString k with
      | none => .bad
      | some (body, r1) => colonMember h body hs calls cont (skipWs r1) := rfl

theorem keyMember_other {τ} (h : Handler τ) (hs : τ) (calls : Nat) (cont : τ → Nat → List UInt8 → TOut τ) (b : UInt8)
    (rest : List UInt8) (hb : b ≠ 34) : keyMember h hs calls cont (b :: rest) = .bad := by
  simp only [keyMember]
  split
  · next heq => injection heq with h1 _; exact absurd h1 hb
  · rfl

theorem keyMember_nil {τ} (h : Handler τ) (hs : τ) (calls : Nat) (cont : τ → Nat → List UInt8 → TOut τ) :
    keyMember h hs calls cont [] = .bad := rfl

theorem colonMember_58 {τ} (h : Handler τ) (body : List UInt8) (hs : τ) (calls : Nat) (cont : τ → Nat → List UInt8 → TOut τ)
    (r2 : List UInt8) :
    colonMember h body hs calls cont (58 :: r2) = stepMember (memberOut h body.toArray (skipWs r2) hs) calls cont := rfl

theorem colonMember_other {τ} (h : Handler τ) (body : List UInt8) (hs : τ) (calls : Nat) (cont : τ → Nat → List UInt8 → TOut τ)
    (b : UInt8) (rest : List UInt8) (hb : b ≠ 58) : colonMember h body hs calls cont (b :: rest) = .bad := by
  simp only [colonMember]
  split
  · next heq => injection heq with h1 _; exact absurd h1 hb
  · rfl

theorem colonMember_nil {τ} (h : Handler τ) (body : List UInt8) (hs : τ) (calls : Nat) (cont : τ → Nat → List UInt8 → TOut τ) :
    colonMember h body hs calls cont [] = .bad := rfl

/-- a transition with one simple action that continues -/
theorem loopL_simple1 {τ} (M : PDM AS) (data : Bytes) (h : Handler τ) (fuel : Nat) (s n : AS) (st : List AS) (r r' : Regs τ) (b : UInt8)
    (a : SAct) (hb : getByte data r.p = some b) (hs : M.step s b = ([.s a], some n)) (hnh : a.isHandler = false)
    (hx : execSimple data M.hasField h a r = .cont r') :
    loopL M data h (fuel + 1) s st r = contL M data h fuel n st { r' with p := wrap64 (r'.p + 1) } := by
  rw [loopL_succ M data h fuel s st r b hb, hs]
  simp only [execActsL, hnh, Bool.false_and, Bool.false_eq_true, if_false, hx, contL]

/-- handler arguments of the object traversal: the raw key bytes -/
theorem hargs_obj {τ} (data : Bytes) (hsm : Small data) (q : Nat) (k r1 : List UInt8) (hatk : At data (q + 1) k)
    (hcl : (34 :: r1) <:+ k) (pv : Nat) (v : List UInt8) (hatv : At data pv v) (r : Regs τ) (hp : r.p = pv)
    (hfs : r.fs = (q : Int)) (hfe : r.fe = ((data.size - r1.length : Nat) : Int)) :
    handlerArgs data (machine .hobj).hasField (hFlo .hobj) (hFhi .hobj) r =
      some ((k.take (k.length - r1.length - 1)).toArray, v.toArray) := by
  have hf : (machine .hobj).hasField = true := rfl
  have hlk := hatk.length
  have hle := hatk.le
  have hsl := hcl.length_le
  simp only [List.length_cons] at hsl
  unfold Small at hsm
  have e1 : (hFlo .hobj).eval (r.env 0 (data.size : Int)) = ((q + 1 : Nat) : Int) := by
    have hflo : hFlo .hobj = .add .fs (.lit 1) := rfl
    rw [hflo]
    simp only [GExpr.eval, Regs.env, hfs]
    rw [wrap64_id] <;> omega
  have e2 : (hFhi .hobj).eval (r.env 0 (data.size : Int)) = ((data.size - r1.length - 1 : Nat) : Int) := by
    have hfhi : hFhi .hobj = .sub .fe (.lit 1) := rfl
    rw [hfhi]
    simp only [GExpr.eval, Regs.env, hfe]
    rw [wrap64_id] <;> omega
  simp only [handlerArgs, hf, hp, suffix_at hatv, if_true, e1, e2]
  rw [slice_at hatk (data.size - r1.length - 1) (by omega) (by omega)]
  have : data.size - r1.length - 1 - (q + 1) = k.length - r1.length - 1 := by omega
  rw [this]

theorem splitString_some (k r1 : List UInt8) (hs : scanStringBody k = some r1) :
    splitString k = some (k.take (k.length - r1.length - 1), r1) := by
  simp only [splitString, hs]

theorem splitString_none (k : List UInt8) (hs : scanStringBody k = none) : splitString k = none := by
  simp only [splitString, hs]

/-- one member of the object traversal from its value on -/
theorem obj_member_value {τ} (h : Handler τ) (hwb : WB h) (data : Bytes) (hsm : Small data)
    (cont : τ → Nat → List UInt8 → TOut τ) (wfuel : Nat)
    (hcont : ∀ (l : List UInt8) (fuel p : Nat) (r : Regs τ), At data p l → r.p = p → r.err = none → l.length + 1 ≤ fuel →
      l.length + 1 ≤ wfuel → WalkRes data (contL (machine .hobj) data h fuel ⟨.hObj, .after⟩ [] r) (cont r.hs r.ncalls l))
    (field : Bytes) (s : AS) (b : UInt8) (rest : List UInt8) (hstep : (machine .hobj).step s b = startValue .hobj .hObj b)
    (fuel p : Nat) (r : Regs τ) (hat : At data p (b :: rest)) (hp : r.p = p) (herr : r.err = none)
    (hargs : handlerArgs data (machine .hobj).hasField (hFlo .hobj) (hFhi .hobj) r = some (field, (b :: rest).toArray))
    (hf : (b :: rest).length + 1 ≤ fuel) (hwf : (b :: rest).length ≤ wfuel) :
    WalkRes data (contL (machine .hobj) data h fuel s [] r) (stepMember (memberOut h field (b :: rest) r.hs) r.ncalls cont) := by
  have key := member_run .hobj rfl .hObj rfl (by decide) rfl h hwb data hsm s b rest hstep field fuel p r hat hp herr hargs hf
  cases hm : memberOut h field (b :: rest) r.hs with
  | bad => rw [hm] at key; exact key
  | herr hs' id => rw [hm] at key; exact key
  | next hs' r' =>
    rw [hm] at key
    simp only [MemberGoal] at key
    obtain ⟨f2, p2, hat2, hf2, e2⟩ := key
    simp only [stepMember]
    rw [e2]
    have hlt := (scan_progress none _).1 _ _ _ (memberOut_next_inv h _ _ _ _ _ hm)
    exact hcont r' f2 p2 _ hat2 rfl rfl hf2 (by omega)

/-- in `⟨hObj, want false⟩` (after the colon): whitespace, then the member's value -/
theorem obj_after_colon {τ} (h : Handler τ) (hwb : WB h) (data : Bytes) (hsm : Small data)
    (cont : τ → Nat → List UInt8 → TOut τ) (wfuel : Nat)
    (hcont : ∀ (l : List UInt8) (fuel p : Nat) (r : Regs τ), At data p l → r.p = p → r.err = none → l.length + 1 ≤ fuel →
      l.length + 1 ≤ wfuel → WalkRes data (contL (machine .hobj) data h fuel ⟨.hObj, .after⟩ [] r) (cont r.hs r.ncalls l))
    (q : Nat) (k r1 : List UInt8) (hatk : At data (q + 1) k) (hcl : (34 :: r1) <:+ k)
    (r2 : List UInt8) (fuel p : Nat) (r : Regs τ) (hat : At data p r2) (hp : r.p = p) (herr : r.err = none)
    (hfs : r.fs = (q : Int)) (hfe : r.fe = ((data.size - r1.length : Nat) : Int))
    (hf : r2.length + 1 ≤ fuel) (hwf : r2.length ≤ wfuel) :
    WalkRes data (contL (machine .hobj) data h fuel ⟨.hObj, .want false⟩ [] r)
      (stepMember (memberOut h (k.take (k.length - r1.length - 1)).toArray (skipWs r2) r.hs) r.ncalls cont) := by
  have hws : ∀ b, isWs b = true → (machine .hobj).step ⟨.hObj, .want false⟩ b = ([], some ⟨.hObj, .want false⟩) := by
    intro b hw; simp [machine, step, hw]
  apply WalkRes.after_reach (ws_loop (machine .hobj) _ hws data h hsm r2 fuel p [] r hat hp hf)
  intro f3 p3 hat3 hf3
  have hlen3 := skipWs_length_le' r2
  cases hsk3 : skipWs r2 with
  | nil =>
    rw [hsk3] at hat3
    simp only [memberOut, stepMember, WalkRes]
    rw [contL_nil (machine .hobj) data h _ _ _ _ p3 rfl hat3]
    exact eof_stops .hobj _ data h _ rfl
  | cons d t =>
    rw [hsk3] at hat3 hf3 hlen3
    have hnws3 := skipWs_cons_of r2 d t hsk3
    have hstep3 : (machine .hobj).step ⟨.hObj, .want false⟩ d = startValue .hobj .hObj d := by
      simp [machine, step, hnws3]
    exact obj_member_value h hwb data hsm cont wfuel hcont _ _ d t hstep3 f3 p3 ({ r with p := (p3 : Int) } : Regs τ) hat3 rfl herr
      (hargs_obj data hsm q k r1 hatk hcl p3 _ hat3 _ rfl hfs hfe) hf3 (by omega)

/-- a key is expected at `b :: rest`: quote, key, colon, member -/
theorem key_member_run {τ} (h : Handler τ) (hwb : WB h) (data : Bytes) (hsm : Small data)
    (cont : τ → Nat → List UInt8 → TOut τ) (wfuel : Nat)
    (hcont : ∀ (l : List UInt8) (fuel p : Nat) (r : Regs τ), At data p l → r.p = p → r.err = none → l.length + 1 ≤ fuel →
      l.length + 1 ≤ wfuel → WalkRes data (contL (machine .hobj) data h fuel ⟨.hObj, .after⟩ [] r) (cont r.hs r.ncalls l))
    (first : Bool) (b : UInt8) (rest : List UInt8) (hnws : isWs b = false) (h125 : first = true → (b == 125) = false)
    (fuel p : Nat) (r : Regs τ) (hat : At data p (b :: rest)) (hp : r.p = p) (herr : r.err = none)
    (hf : (b :: rest).length + 1 ≤ fuel) (hwf : (b :: rest).length ≤ wfuel) :
    WalkRes data (contL (machine .hobj) data h fuel ⟨.hObj, .wantKey first⟩ [] r) (keyMember h r.hs r.ncalls cont (b :: rest)) := by
  obtain ⟨fuel, rfl⟩ : ∃ f, fuel = f + 1 := ⟨fuel - 1, by omega⟩
  obtain ⟨hb, hlt, hat'⟩ := hat.cons_inv
  have hb' : getByte data r.p = some b := by rw [hp]; exact hb
  have hlen := hat.length
  have hlen' := hat'.length
  simp only [List.length_cons] at hf hwf hlen
  have hcl0 := contL_cons (machine .hobj) data h (fuel + 1) ⟨.hObj, .wantKey first⟩ [] r p b rest hp hat
  by_cases h34 : b = 34
  · subst h34
    rw [keyMember_34]
    have hstep : (machine .hobj).step ⟨.hObj, .wantKey first⟩ 34 = ([.s .fieldStart], some ⟨.hObj, .key .str⟩) := by
      simp [machine, step, isWs]
    have hw : wrap64 (r.p + 1) = ((p + 1 : Nat) : Int) := by
      rw [hp, wrap64_id] <;> (unfold Small at hsm; omega)
    have hl1 := loopL_simple1 (machine .hobj) data h fuel _ _ [] r { r with fs := r.p } 34 .fieldStart hb' hstep rfl rfl
    have hregs : ({ ({ r with fs := r.p } : Regs τ) with p := wrap64 (({ r with fs := r.p } : Regs τ).p + 1) } : Regs τ) =
        ({ r with fs := (p : Int), p := ((p + 1 : Nat) : Int) } : Regs τ) := by
      have e1 : ({ r with fs := r.p } : Regs τ).p = r.p := rfl
      rw [e1, hw, hp]
    rw [hcl0, hl1, hregs]
    -- the key string
    have key := str_run .hobj .hObj .key ⟨.hObj, .keyClosed⟩ (fun t b _ => rfl) (fun t _ => rfl)
      data h hsm rest .str rfl fuel (p + 1) [] ({ r with fs := (p : Int), p := ((p + 1 : Nat) : Int) } : Regs τ) hat' rfl (by omega)
    rw [strScanT_str] at key
    cases hs : scanStringBody rest with
    | none =>
      rw [hs] at key
      rw [splitString_none rest hs]
      exact key
    | some r1 =>
      rw [hs] at key
      rw [splitString_some rest r1 hs]
      simp only []
      have hprog := scanStringBody_length_lt _ _ hs
      have hclose := scanStringBody_closing _ _ hs
      apply WalkRes.after_reach key
      intro f2 p2 hat2 hf2
      have hl2 := hat2.length
      have hle2 := hat2.le
      have hfe : ((p2 : Nat) : Int) = ((data.size - r1.length : Nat) : Int) := by omega
      -- in `keyClosed`, in front of `r1`
      cases r1 with
      | nil =>
        simp only [skipWs, colonMember_nil, WalkRes]
        rw [contL_nil (machine .hobj) data h _ _ _ _ p2 rfl hat2]
        exact eof_stops .hobj _ data h _ rfl
      | cons x r1' =>
        obtain ⟨f2, rfl⟩ : ∃ f, f2 = f + 1 := ⟨f2 - 1, by omega⟩
        obtain ⟨hbx, _, hat2'⟩ := hat2.cons_inv
        have hl2' := hat2'.length
        simp only [List.length_cons] at hf2 hl2 hprog
        have hw2 : wrap64 ((p2 : Int) + 1) = ((p2 + 1 : Nat) : Int) := by
          rw [wrap64_id] <;> (unfold Small at hsm; omega)
        have hregs2 : ∀ (rr : Regs τ), rr.p = (p2 : Int) →
            ({ ({ rr with fe := rr.p } : Regs τ) with p := wrap64 (({ rr with fe := rr.p } : Regs τ).p + 1) } : Regs τ) =
              ({ rr with fe := (p2 : Int), p := ((p2 + 1 : Nat) : Int) } : Regs τ) := by
          intro rr hrr
          have e1 : ({ rr with fe := rr.p } : Regs τ).p = rr.p := rfl
          rw [e1, hrr, hw2]
        rw [contL_cons (machine .hobj) data h _ _ _ _ p2 x r1' rfl hat2]
        by_cases hwx : isWs x = true
        · have hstep2 : (machine .hobj).step ⟨.hObj, .keyClosed⟩ x = ([.s .fieldEnd], some ⟨.hObj, .afterKey⟩) := by
            simp [machine, step, hwx]
          rw [loopL_simple1 (machine .hobj) data h f2 _ _ [] _ _ x .fieldEnd hbx hstep2 rfl rfl, hregs2 _ rfl]
          have hsk : skipWs (x :: r1') = skipWs r1' := by simp [skipWs, hwx]
          rw [hsk]
          have hws : ∀ b, isWs b = true → (machine .hobj).step ⟨.hObj, .afterKey⟩ b = ([], some ⟨.hObj, .afterKey⟩) := by
            intro b hw; simp [machine, step, hw]
          apply WalkRes.after_reach (ws_loop (machine .hobj) _ hws data h hsm r1' f2 (p2 + 1) []
            ({ r with fs := (p : Int), fe := (p2 : Int), p := ((p2 + 1 : Nat) : Int) } : Regs τ) hat2' rfl (by omega))
          intro f4 p4 hat4 hf4
          have hlen4 := skipWs_length_le' r1'
          cases hsk4 : skipWs r1' with
          | nil =>
            rw [hsk4] at hat4
            simp only [colonMember_nil, WalkRes]
            rw [contL_nil (machine .hobj) data h _ _ _ _ p4 rfl hat4]
            exact eof_stops .hobj _ data h _ rfl
          | cons y r2 =>
            rw [hsk4] at hat4 hf4 hlen4
            have hnwy := skipWs_cons_of r1' y r2 hsk4
            obtain ⟨f4, rfl⟩ : ∃ f, f4 = f + 1 := ⟨f4 - 1, by omega⟩
            obtain ⟨hby, _, hat4'⟩ := hat4.cons_inv
            simp only [List.length_cons] at hf4 hlen4
            by_cases h58 : y = 58
            · subst h58
              rw [colonMember_58]
              have hstep4 : (machine .hobj).step ⟨.hObj, .afterKey⟩ 58 = ([], some ⟨.hObj, .want false⟩) := by
                simp [machine, step, isWs]
              rw [contL_cons (machine .hobj) data h _ _ _ _ p4 58 r2 rfl hat4,
                loopL_goto (machine .hobj) data h f4 _ _ [] _ p4 58 r2 hsm rfl hat4 hstep4]
              exact obj_after_colon h hwb data hsm cont wfuel hcont p rest (x :: r1') hat' hclose r2 f4 (p4 + 1)
                _ hat4' rfl herr rfl hfe (by omega) (by omega)
            · rw [colonMember_other h _ _ _ _ y r2 h58]
              have h58' : (y == 58) = false := by simpa using h58
              have hstep4 : (machine .hobj).step ⟨.hObj, .afterKey⟩ y = errTr .hobj .hObj := by
                simp [machine, step, hnwy, h58']
              simp only [WalkRes]
              rw [contL_cons (machine .hobj) data h _ _ _ _ p4 y r2 rfl hat4]
              exact errTr_stops .hobj .hObj data h f4 _ [] _ y hby hstep4
        · have hwx' : isWs x = false := by simpa using hwx
          have hsk : skipWs (x :: r1') = x :: r1' := by simp [skipWs, hwx']
          rw [hsk]
          by_cases h58 : x = 58
          · subst h58
            rw [colonMember_58]
            have hstep2 : (machine .hobj).step ⟨.hObj, .keyClosed⟩ 58 = ([.s .fieldEnd], some ⟨.hObj, .want false⟩) := by
              simp [machine, step, isWs]
            rw [loopL_simple1 (machine .hobj) data h f2 _ _ [] _ _ 58 .fieldEnd hbx hstep2 rfl rfl, hregs2 _ rfl]
            exact obj_after_colon h hwb data hsm cont wfuel hcont p rest (58 :: r1') hat' hclose r1' f2 (p2 + 1)
              ({ r with fs := (p : Int), fe := (p2 : Int), p := ((p2 + 1 : Nat) : Int) } : Regs τ) hat2' rfl herr rfl hfe (by omega) (by omega)
          · rw [colonMember_other h _ _ _ _ x r1' h58]
            have h58' : (x == 58) = false := by simpa using h58
            have hstep2 : (machine .hobj).step ⟨.hObj, .keyClosed⟩ x = errTr .hobj .hObj := by
              simp [machine, step, hwx', h58']
            simp only [WalkRes]
            exact errTr_stops .hobj .hObj data h f2 _ [] _ x hbx hstep2
  · rw [keyMember_other h _ _ _ b rest h34]
    have h34' : (b == 34) = false := by simpa using h34
    have hstep : (machine .hobj).step ⟨.hObj, .wantKey first⟩ b = errTr .hobj .hObj := by
      cases first with
      | true => simp [machine, step, hnws, h34', h125 rfl]
      | false => simp [machine, step, hnws, h34']
    simp only [WalkRes]
    rw [hcl0]
    exact errTr_stops .hobj .hObj data h fuel _ [] r b hb' hstep

def ObjWalkGoal {τ} (h : Handler τ) (data : Bytes) (wfuel : Nat) : Prop :=
  ∀ (first : Bool) (l : List UInt8) (fuel p : Nat) (r : Regs τ), At data p l → r.p = p → r.err = none → l.length + 1 ≤ fuel →
    l.length + 1 ≤ wfuel →
    WalkRes data (contL (machine .hobj) data h fuel ⟨.hObj, if first then .wantKey true else .after⟩ [] r)
      (objWalk h wfuel first l r.hs r.ncalls)

theorem obj_walk {τ} (h : Handler τ) (hwb : WB h) (data : Bytes) (hsm : Small data) : ∀ wfuel, ObjWalkGoal h data wfuel := by
  intro wfuel
  induction wfuel with
  | zero => intro first l fuel p r _ _ _ _ hw; omega
  | succ wfuel ih =>
    intro first l fuel p r hat hp herr hf hwf
    simp only [objWalk]
    have hws : ∀ b, isWs b = true → (machine .hobj).step ⟨.hObj, if first then .wantKey true else .after⟩ b =
        ([], some ⟨.hObj, if first then .wantKey true else .after⟩) := by
      intro b hw
      cases first <;> simp [machine, step, afterTr, hw]
    have hnf : isFinal ⟨.hObj, if first then .wantKey true else .after⟩ = false := by cases first <;> rfl
    apply WalkRes.after_reach (ws_loop (machine .hobj) _ hws data h hsm l fuel p [] r hat hp hf)
    intro f1 p1 hat1 hf1
    have hlen := skipWs_length_le' l
    have hcont : ∀ (l' : List UInt8) (fuel p : Nat) (r : Regs τ), At data p l' → r.p = p → r.err = none → l'.length + 1 ≤ fuel →
        l'.length + 1 ≤ wfuel →
        WalkRes data (contL (machine .hobj) data h fuel ⟨.hObj, .after⟩ [] r) (objWalk h wfuel false l' r.hs r.ncalls) := by
      intro l' fuel p r hat hp herr hf hw
      have := ih false l' fuel p r hat hp herr hf hw
      simpa using this
    cases hsk : skipWs l with
    | nil =>
      rw [hsk] at hat1
      simp only [WalkRes]
      rw [contL_nil (machine .hobj) data h _ _ _ _ p1 rfl hat1]
      exact eof_stops .hobj _ data h _ hnf
    | cons b rest =>
      rw [hsk] at hat1 hf1 hlen
      have hnws := skipWs_cons_of l b rest hsk
      simp only []
      by_cases h125 : (b == 125) = true
      · have hb125 : b = 125 := by simpa using h125
        subst hb125
        simp only [beq_self_eq_true, if_true]
        have hstep : (machine .hobj).step ⟨.hObj, if first then .wantKey true else .after⟩ 125 = ([], some ⟨.hTop, .done⟩) := by
          cases first <;> simp [machine, step, afterTr, isWs]
        exact walk_done .hobj data h hsm f1 p1 _ ({ r with p := (p1 : Int) } : Regs τ) 125 rest hat1 rfl herr hf1 hstep
      · have h125' : (b == 125) = false := by simpa using h125
        simp only [h125', Bool.false_eq_true, if_false]
        cases first with
        | true =>
          simp only [if_true]
          exact key_member_run h hwb data hsm _ wfuel hcont true b rest hnws (fun _ => h125') f1 p1
            ({ r with p := (p1 : Int) } : Regs τ) hat1 rfl herr hf1 (by simp only [List.length_cons] at hlen ⊢; omega)
        | false =>
          simp only [Bool.false_eq_true, if_false]
          by_cases h44 : (b == 44) = true
          · have hb44 : b = 44 := by simpa using h44
            subst hb44
            simp only [beq_self_eq_true, if_true]
            obtain ⟨f1, rfl⟩ : ∃ f, f1 = f + 1 := ⟨f1 - 1, by omega⟩
            obtain ⟨_, _, hat'⟩ := hat1.cons_inv
            have hstep : (machine .hobj).step ⟨.hObj, .after⟩ 44 = ([], some ⟨.hObj, .wantKey false⟩) := by
              simp [machine, step, afterTr, isWs]
            rw [contL_cons (machine .hobj) data h _ _ _ _ p1 44 rest rfl hat1,
              loopL_goto (machine .hobj) data h f1 _ _ [] _ p1 44 rest hsm rfl hat1 hstep]
            have hws2 : ∀ b, isWs b = true → (machine .hobj).step ⟨.hObj, .wantKey false⟩ b = ([], some ⟨.hObj, .wantKey false⟩) := by
              intro b hw; simp [machine, step, hw]
            apply WalkRes.after_reach (ws_loop (machine .hobj) _ hws2 data h hsm rest f1 (p1 + 1) []
              ({ r with p := ((p1 + 1 : Nat) : Int) } : Regs τ) hat' rfl (by simp only [List.length_cons] at hf1; omega))
            intro f3 p3 hat3 hf3
            have hlen3 := skipWs_length_le' rest
            cases hsk3 : skipWs rest with
            | nil =>
              rw [hsk3] at hat3
              simp only [keyMember_nil, WalkRes]
              rw [contL_nil (machine .hobj) data h _ _ _ _ p3 rfl hat3]
              exact eof_stops .hobj _ data h _ rfl
            | cons d t =>
              rw [hsk3] at hat3 hf3 hlen3
              have hnws3 := skipWs_cons_of rest d t hsk3
              exact key_member_run h hwb data hsm _ wfuel hcont false d t hnws3 (fun hh => by cases hh) f3 p3
                ({ r with p := (p3 : Int) } : Regs τ) hat3 rfl herr hf3 (by simp only [List.length_cons] at hlen hlen3 ⊢; omega)
          · have h44' : (b == 44) = false := by simpa using h44
            simp only [h44', Bool.false_eq_true, if_false, WalkRes]
            obtain ⟨f1, rfl⟩ : ∃ f, f1 = f + 1 := ⟨f1 - 1, by omega⟩
            obtain ⟨hb, _, _⟩ := hat1.cons_inv
            have hstep : (machine .hobj).step ⟨.hObj, .after⟩ b = errTr .hobj .hObj := by
              simp [machine, step, afterTr, hnws, h44', h125']
            rw [contL_cons (machine .hobj) data h _ _ _ _ p1 b rest rfl hat1]
            exact errTr_stops .hobj .hObj data h f1 _ [] _ b hb hstep

end RJson.Abs
