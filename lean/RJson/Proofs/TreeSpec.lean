import RJson.Proofs.ValueReaderResume
/-!
# The value tree of a JSON value, by recursive descent through the member lists of the reference scanner

`treeOf f data`: the tree of the first value of `data` (`f` bounds the nesting of containers), in the value type of
the model (`Model.JVal`): strings are `Spec.decodeString` of the bytes between the quotes, arrays the trees of
`Spec.traverseArray`'s members in order, objects are built by assigning the members of `Spec.traverseObject` in
document order to a map (`Model.mapSet`: a later duplicate key replaces the earlier value), numbers are whatever
`ParseJSONFloatPrefix` makes of the literal (`numOf`; its correctness is C04's business).
-/
namespace RJson.Tree
open RJson.Spec RJson.Model

/-- the float64 bits `ParseJSONFloatPrefix` returns for the literal at the head of `v` -/
def numOf (v : List UInt8) : Option Nat :=
  if (FP.parse v.toArray).err then none else some (FP.parse v.toArray).bits

def keyOf (m : Member) : Bytes := (decodeString (m.field.length + 1) m.field).toArray

def treeOf : Nat → List UInt8 → Option Model.JVal
  | f, data =>
    match skipWs data with
    | [] => none
    | b :: k =>
      if b == 34 then
        (match splitString k with
          | some (body, _) => some (.str (decodeString (body.length + 1) body).toArray)
          | none => none)
      else if b == 116 then (match scanLit [114, 117, 101] k with | some _ => some (.bool true) | none => none)
      else if b == 102 then (match scanLit [97, 108, 115, 101] k with | some _ => some (.bool false) | none => none)
      else if b == 110 then (match scanLit [117, 108, 108] k with | some _ => some .null | none => none)
      else if b == 91 then
        (match f with
          | 0 => none
          | f' + 1 =>
            match traverseArray data with
            | some (ms, _) => (ms.mapM (fun m => treeOf f' (data.drop m.off))).map (fun xs => .arr xs.toArray)
            | none => none)
      else if b == 123 then
        (match f with
          | 0 => none
          | f' + 1 =>
            match traverseObject data with
            | some (ms, _) =>
              (ms.foldlM (fun acc m => (treeOf f' (data.drop m.off)).map (fun v => mapSet acc (keyOf m) v)) #[]).map .obj
            | none => none)
      else (numOf (b :: k)).map .num

/-- non-vacuity: `{"a":[true,"x"],"a":null}` is the map `a ↦ null` (the later duplicate wins) -/
example : (treeOf 3 [123, 34, 97, 34, 58, 91, 116, 114, 117, 101, 44, 34, 120, 34, 93, 44, 34, 97, 34, 58, 110, 117, 108, 108, 125]).isSome = true := by
  decide +kernel

end RJson.Tree

namespace RJson.Tree
open RJson.Spec RJson.Model RJson.Ragel RJson.Abs RJson.VR

/-! ## unfolding `treeOf` -/

theorem treeOf_scalar (f : Nat) (data : List UInt8) (b : UInt8) (k : List UInt8) (hsk : skipWs data = b :: k)
    (h91 : (b == 91) = false) (h123 : (b == 123) = false) :
    treeOf f data =
      if b == 34 then
        (match splitString k with
          | some (body, _) => some (.str (decodeString (body.length + 1) body).toArray)
          | none => none)
      else if b == 116 then (match scanLit [114, 117, 101] k with | some _ => some (.bool true) | none => none)
      else if b == 102 then (match scanLit [97, 108, 115, 101] k with | some _ => some (.bool false) | none => none)
      else if b == 110 then (match scanLit [117, 108, 108] k with | some _ => some .null | none => none)
      else (numOf (b :: k)).map .num := by
  cases f <;> simp only [treeOf, hsk, h91, h123, Bool.false_eq_true, if_false]

theorem treeOf_arr (f : Nat) (data : List UInt8) (k : List UInt8) (hsk : skipWs data = 91 :: k) :
    treeOf (f + 1) data =
      match traverseArray data with
      | some (ms, _) => (ms.mapM (fun m => treeOf f (data.drop m.off))).map (fun xs => .arr xs.toArray)
      | none => none := by
  simp only [treeOf, hsk]
  rfl

theorem treeOf_obj (f : Nat) (data : List UInt8) (k : List UInt8) (hsk : skipWs data = 123 :: k) :
    treeOf (f + 1) data =
      match traverseObject data with
      | some (ms, _) =>
        (ms.foldlM (fun acc m => (treeOf f (data.drop m.off)).map (fun v => mapSet acc (keyOf m) v)) #[]).map .obj
      | none => none := by
  simp only [treeOf, hsk]
  rfl

/-- which byte a token type comes from -/
theorem tokenType_inv (b : UInt8) :
    ((Spec.tokenType b == 1) = true → b = 110) ∧ ((Spec.tokenType b == 2) = true → b = 34) ∧
    ((Spec.tokenType b == 3) = true → (b == 45 || isDigit b) = true) ∧
    ((Spec.tokenType b == 4 || Spec.tokenType b == 5) = true → b = 116 ∨ b = 102) ∧
    ((Spec.tokenType b == 6) = true → b = 123) ∧ ((Spec.tokenType b == 8) = true → b = 91) := by
  have hall : allBelow (fun n =>
      (!(Spec.tokenType (UInt8.ofNat n) == 1) || UInt8.ofNat n == 110) &&
      (!(Spec.tokenType (UInt8.ofNat n) == 2) || UInt8.ofNat n == 34) &&
      (!(Spec.tokenType (UInt8.ofNat n) == 3) || (UInt8.ofNat n == 45 || isDigit (UInt8.ofNat n))) &&
      (!(Spec.tokenType (UInt8.ofNat n) == 4 || Spec.tokenType (UInt8.ofNat n) == 5) || (UInt8.ofNat n == 116 || UInt8.ofNat n == 102)) &&
      (!(Spec.tokenType (UInt8.ofNat n) == 6) || UInt8.ofNat n == 123) &&
      (!(Spec.tokenType (UInt8.ofNat n) == 8) || UInt8.ofNat n == 91)) 256 = true := by decide +kernel
  have := forall_byte (P := fun b =>
      (!(Spec.tokenType b == 1) || b == 110) && (!(Spec.tokenType b == 2) || b == 34) &&
      (!(Spec.tokenType b == 3) || (b == 45 || isDigit b)) &&
      (!(Spec.tokenType b == 4 || Spec.tokenType b == 5) || (b == 116 || b == 102)) &&
      (!(Spec.tokenType b == 6) || b == 123) && (!(Spec.tokenType b == 8) || b == 91)) hall b
  simp only [Bool.and_eq_true, Bool.or_eq_true, Bool.not_eq_true', beq_iff_eq] at this
  obtain ⟨⟨⟨⟨⟨h1, h2⟩, h3⟩, h4⟩, h5⟩, h6⟩ := this
  refine ⟨?_, ?_, ?_, ?_, ?_, ?_⟩
  · intro h; rcases h1 with h1 | h1
    · rw [h1] at h; cases h
    · exact h1
  · intro h; rcases h2 with h2 | h2
    · rw [h2] at h; cases h
    · exact h2
  · intro h; rcases h3 with h3 | h3
    · rw [h3] at h; cases h
    · rcases h3 with h3 | h3
      · simp [h3]
      · simp [h3]
  · intro h; rcases h4 with h4 | h4
    · simp only [Bool.or_eq_false_iff] at h4
      simp [h4.1, h4.2] at h
    · exact h4
  · intro h; rcases h5 with h5 | h5
    · rw [h5] at h; cases h
    · exact h5
  · intro h; rcases h6 with h6 | h6
    · rw [h6] at h; cases h
    · exact h6

end RJson.Tree

namespace RJson.Tree
open RJson.Spec RJson.Model RJson.Ragel RJson.Abs RJson.VR

theorem not_br_of (b : UInt8) (h : b = 110 ∨ b = 34 ∨ b = 116 ∨ b = 102 ∨ (b == 45 || isDigit b) = true) :
    (b == 91) = false ∧ (b == 123) = false := by
  have hall : allBelow (fun n =>
      !(UInt8.ofNat n == 110 || UInt8.ofNat n == 34 || UInt8.ofNat n == 116 || UInt8.ofNat n == 102 ||
        (UInt8.ofNat n == 45 || isDigit (UInt8.ofNat n))) ||
      (!(UInt8.ofNat n == 91) && !(UInt8.ofNat n == 123))) 256 = true := by decide +kernel
  have := forall_byte (P := fun b => !(b == 110 || b == 34 || b == 116 || b == 102 || (b == 45 || isDigit b)) ||
      (!(b == 91) && !(b == 123))) hall b
  have hc : (b == 110 || b == 34 || b == 116 || b == 102 || (b == 45 || isDigit b)) = true := by
    rcases h with h | h | h | h | h
    · subst h; rfl
    · subst h; rfl
    · subst h; rfl
    · subst h; rfl
    · simp [h]
  simp only [hc, Bool.not_true, Bool.false_or, Bool.and_eq_true, Bool.not_eq_true'] at this
  exact this

/-- a scalar member: what `readSimpleValue` returns is the tree of the value -/
theorem readSimpleValue_tree (f : Nat) (sub : Bytes) (hsm : Small sub) (b : UInt8) (k : List UInt8)
    (hsk : skipWs sub.toList = b :: k)
    (he : (Model.readSimpleValue sub (Spec.tokenType b)).err = none)
    (hpk : (Model.readSimpleValue sub (Spec.tokenType b)).panicked = false) :
    treeOf f sub.toList = some (Model.readSimpleValue sub (Spec.tokenType b)).val := by
  obtain ⟨i1, i2, i3, i4, _, _⟩ := tokenType_inv b
  simp only [Model.readSimpleValue] at he hpk ⊢
  by_cases h1 : (Spec.tokenType b == 1) = true
  · simp only [h1, if_true] at he hpk ⊢
    have hb := i1 h1
    subst hb
    have key := C13.readNull_spec sub hsm
    rw [hsk, scanLit_cons_cons] at key
    simp only [beq_self_eq_true, if_true] at key
    rw [treeOf_scalar f _ 110 k hsk (by decide) (by decide)]
    cases hs : scanLit [117, 108, 108] k with
    | none => rw [hs] at key; rw [key.1] at he; cases he
    | some rest => simp [hs]
  · simp only [h1, Bool.false_eq_true, if_false] at he hpk ⊢
    by_cases h2 : (Spec.tokenType b == 2) = true
    · simp only [h2, if_true] at he hpk ⊢
      have hb := i2 h2
      subst hb
      have key := C06.readStringBytes_spec sub hsm #[]
      rw [StrRead.readString_34 _ k hsk] at key
      rw [treeOf_scalar f _ 34 k hsk (by decide) (by decide)]
      simp only [beq_self_eq_true, if_true]
      cases hsp : splitString k with
      | none => rw [hsp] at key; exact absurd he key.1
      | some pr =>
        obtain ⟨body, rest⟩ := pr
        rw [hsp] at key
        simp only [] at key ⊢
        rw [key.2.2.2]
        simp
    · simp only [h2, Bool.false_eq_true, if_false] at he hpk ⊢
      by_cases h3 : (Spec.tokenType b == 3) = true
      · simp only [h3, if_true] at he hpk ⊢
        have hb := i3 h3
        obtain ⟨h91, h123⟩ := not_br_of b (.inr (.inr (.inr (.inr hb))))
        rw [treeOf_scalar f _ b k hsk h91 h123]
        -- not a quote or a literal's first letter
        have hne : (b == 34) = false ∧ (b == 116) = false ∧ (b == 102) = false ∧ (b == 110) = false := by
          have hall : allBelow (fun n => !(UInt8.ofNat n == 45 || isDigit (UInt8.ofNat n)) ||
              (!(UInt8.ofNat n == 34) && !(UInt8.ofNat n == 116) && !(UInt8.ofNat n == 102) && !(UInt8.ofNat n == 110))) 256 = true := by
            decide +kernel
          have := forall_byte (P := fun b => !(b == 45 || isDigit b) || (!(b == 34) && !(b == 116) && !(b == 102) && !(b == 110))) hall b
          simp only [hb, Bool.not_true, Bool.false_or, Bool.and_eq_true, Bool.not_eq_true'] at this
          exact ⟨this.1.1.1, this.1.1.2, this.1.2, this.2⟩
        simp only [hne.1, hne.2.1, hne.2.2.1, hne.2.2.2, Bool.false_eq_true, if_false]
        -- `ReadFloat64` parses the text from the first non-whitespace byte on
        have hcw := countWhitespace_spec sub
        have hwl := skipWs_length_le' sub.toList
        simp only [Array.length_toList] at hwl
        simp only [Model.readFloat64, hcw] at he hpk ⊢
        have hend : (sub.size - (skipWs sub.toList).length == sub.size) = false := by
          rw [hsk] at hwl ⊢
          simp only [List.length_cons] at hwl ⊢
          simp; omega
        simp only [hend, Bool.false_eq_true, if_false] at he hpk ⊢
        have hl : (sub.extract (sub.size - (skipWs sub.toList).length) sub.size) = (b :: k).toArray := by
          apply Array.ext'
          rw [extract_toList, List.take_of_length_le (by simp)]
          have := C13Aux.drop_skipWs sub.toList
          simp only [Array.length_toList] at this
          rw [this, hsk]
        rw [hl] at he hpk ⊢
        have hperr : (FP.parse (b :: k).toArray).err = false := by
          cases hh : (FP.parse (b :: k).toArray).err with
          | false => rfl
          | true => simp [hh] at he
        simp [numOf, hperr]
      · simp only [h3, Bool.false_eq_true, if_false] at he hpk ⊢
        by_cases h4 : (Spec.tokenType b == 4 || Spec.tokenType b == 5) = true
        · simp only [h4, if_true] at he hpk ⊢
          have key := C13.readBool_spec sub hsm
          rw [hsk] at key
          rcases i4 h4 with hb | hb
          · subst hb
            rw [scanLit_cons_cons, scanLit_cons_cons] at key
            simp only [beq_self_eq_true, if_true] at key
            rw [treeOf_scalar f _ 116 k hsk (by decide) (by decide)]
            have hx : ((116 : UInt8) == 34) = false := by decide
            simp only [hx, Bool.false_eq_true, if_false, beq_self_eq_true, if_true]
            cases hs : scanLit [114, 117, 101] k with
            | some rest => rw [hs] at key; simp only [] at key ⊢; rw [key.2.1]
            | none =>
              rw [hs] at key
              have hx2 : ((116 : UInt8) == 102) = false := by decide
              simp only [hx2, Bool.false_eq_true, if_false] at key
              rw [key.1] at he; cases he
          · subst hb
            rw [scanLit_cons_cons, scanLit_cons_cons] at key
            have hx2 : ((102 : UInt8) == 116) = false := by decide
            simp only [hx2, Bool.false_eq_true, if_false, beq_self_eq_true, if_true] at key
            rw [treeOf_scalar f _ 102 k hsk (by decide) (by decide)]
            have hx : ((102 : UInt8) == 34) = false := by decide
            simp only [hx, hx2, Bool.false_eq_true, if_false, beq_self_eq_true, if_true]
            cases hs : scanLit [97, 108, 115, 101] k with
            | some rest => rw [hs] at key; simp only [] at key ⊢; rw [key.2.1]
            | none => rw [hs] at key; rw [key.1] at he; cases he
        · simp [h4] at he

end RJson.Tree
