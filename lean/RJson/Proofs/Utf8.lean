import RJson.Model.Api
import RJson.Spec.Values
import RJson.Proofs.Step
/-!
# UTF-8: the model of `utf8.DecodeRune` + `utf8.EncodeRune` against the specification (C17)

`decodeRune` followed by `utf8Encode` copies a well-formed sequence (Unicode Table 3-7) unchanged and turns
anything else into U+FFFD while advancing one byte — exactly one step of `Spec.sanitize`.
-/
namespace RJson.Utf8
open RJson.Model RJson.Spec

/-- list view of the model's `decodeRune` -/
def decodeRuneL (l : List UInt8) : Nat × Nat :=
  match l with
  | [] => (0xFFFD, 0)
  | b0 :: rest =>
    if b0 < 0x80 then (b0.toNat, 1)
    else if 0xC2 ≤ b0 && b0 ≤ 0xDF then
      match rest with
      | b1 :: _ => if isCont b1 then ((b0.toNat - 0xC0) * 64 + (b1.toNat - 0x80), 2) else (0xFFFD, 1)
      | [] => (0xFFFD, 1)
    else if 0xE0 ≤ b0 && b0 ≤ 0xEF then
      match rest with
      | b1 :: b2 :: _ =>
        let lo : UInt8 := if b0 == 0xE0 then 0xA0 else 0x80
        let hi : UInt8 := if b0 == 0xED then 0x9F else 0xBF
        if lo ≤ b1 && b1 ≤ hi && isCont b2 then
          ((b0.toNat - 0xE0) * 4096 + (b1.toNat - 0x80) * 64 + (b2.toNat - 0x80), 3)
        else (0xFFFD, 1)
      | _ => (0xFFFD, 1)
    else if 0xF0 ≤ b0 && b0 ≤ 0xF4 then
      match rest with
      | b1 :: b2 :: b3 :: _ =>
        let lo : UInt8 := if b0 == 0xF0 then 0x90 else 0x80
        let hi : UInt8 := if b0 == 0xF4 then 0x8F else 0xBF
        if lo ≤ b1 && b1 ≤ hi && isCont b2 && isCont b3 then
          ((b0.toNat - 0xF0) * 262144 + (b1.toNat - 0x80) * 4096 + (b2.toNat - 0x80) * 64 + (b3.toNat - 0x80), 4)
        else (0xFFFD, 1)
      | _ => (0xFFFD, 1)
    else (0xFFFD, 1)

theorem getElem?_drop_at (data : Bytes) (i k : Nat) : data[i + k]? = (data.toList.drop i)[k]? := by
  simp [List.getElem?_drop]

theorem decodeRune_eq (data : Bytes) (i : Nat) : decodeRune data i = decodeRuneL (data.toList.drop i) := by
  unfold decodeRune decodeRuneL
  have h0 : data[i]? = (data.toList.drop i)[0]? := by simpa using getElem?_drop_at data i 0
  have h1 : data[i + 1]? = (data.toList.drop i)[1]? := getElem?_drop_at data i 1
  have h2 : data[i + 2]? = (data.toList.drop i)[2]? := getElem?_drop_at data i 2
  have h3 : data[i + 3]? = (data.toList.drop i)[3]? := getElem?_drop_at data i 3
  rw [h0, h1, h2, h3]
  generalize data.toList.drop i = l
  match l with
  | [] => rfl
  | [b0] => simp
  | [b0, b1] => simp
  | [b0, b1, b2] => simp
  | b0 :: b1 :: b2 :: b3 :: rest => simp

theorem ofNat_toNat' (b : UInt8) (n : Nat) (h : n = b.toNat) : UInt8.ofNat n = b := by
  subst h; simp

theorem isCont_iff (b : UInt8) : isCont b = true ↔ 128 ≤ b.toNat ∧ b.toNat ≤ 191 := by
  simp [isCont, UInt8.le_iff_toNat_le]

theorem cont_iff (b : UInt8) : Spec.cont b = true ↔ 128 ≤ b.toNat ∧ b.toNat ≤ 191 := by
  simp [Spec.cont, UInt8.le_iff_toNat_le]

/-- one step of the sanitiser: what the model does with the input at a non-empty position -/
def stepSpec (l : List UInt8) : List UInt8 × Nat :=
  match wellFormedLen l with
  | some n => (l.take n, n)
  | none => (replacement, 1)

theorem step_ascii (b0 : UInt8) (rest : List UInt8) (h : b0.toNat < 128) :
    (utf8Encode (decodeRuneL (b0 :: rest)).1, (decodeRuneL (b0 :: rest)).2) = stepSpec (b0 :: rest) := by
  have hlt : b0 < 0x80 := by rw [UInt8.lt_iff_toNat_lt]; simpa using h
  simp only [decodeRuneL, hlt, if_true, stepSpec, wellFormedLen, utf8Encode]
  have : b0.toNat < 0x80 := h
  simp [this]

theorem enc_fffd : utf8Encode 0xFFFD = replacement := by decide

theorem step_two (b0 : UInt8) (rest : List UInt8) (h1 : 194 ≤ b0.toNat) (h2 : b0.toNat ≤ 223) :
    (utf8Encode (decodeRuneL (b0 :: rest)).1, (decodeRuneL (b0 :: rest)).2) = stepSpec (b0 :: rest) := by
  have hnlt : ¬ b0 < 0x80 := by rw [UInt8.lt_iff_toNat_lt]; simp; omega
  have hc : (0xC2 ≤ b0 && b0 ≤ 0xDF) = true := by simp [UInt8.le_iff_toNat_le]; omega
  simp only [decodeRuneL, hnlt, if_false, hc, if_true, stepSpec, wellFormedLen]
  cases rest with
  | nil => simp [enc_fffd]
  | cons b1 rest =>
    simp only []
    by_cases hb1 : isCont b1 = true
    · have hb1' : Spec.cont b1 = true := by rw [cont_iff]; exact (isCont_iff b1).mp hb1
      obtain ⟨c1, c2⟩ := (isCont_iff b1).mp hb1
      simp only [hb1, hb1', if_true]
      have ht : (b0 :: b1 :: rest).take 2 = [b0, b1] := rfl
      rw [ht]
      unfold utf8Encode
      have r1 : ¬ ((b0.toNat - 0xC0) * 64 + (b1.toNat - 0x80) < 0x80) := by omega
      have r2 : (b0.toNat - 0xC0) * 64 + (b1.toNat - 0x80) < 0x800 := by omega
      rw [if_neg r1, if_pos r2]
      have e0 : UInt8.ofNat (0xC0 + ((b0.toNat - 0xC0) * 64 + (b1.toNat - 0x80)) / 64) = b0 := by apply ofNat_toNat'; omega
      have e1 : UInt8.ofNat (0x80 + ((b0.toNat - 0xC0) * 64 + (b1.toNat - 0x80)) % 64) = b1 := by apply ofNat_toNat'; omega
      rw [e0, e1]
    · have hb1' : Spec.cont b1 = false := by
        cases h : Spec.cont b1
        · rfl
        · exact absurd ((isCont_iff b1).mpr ((cont_iff b1).mp h)) hb1
      simp [hb1, hb1', enc_fffd]

/-- second-byte range of a three-byte sequence, as natural numbers -/
def lo3 (n0 : Nat) : Nat := if n0 = 224 then 160 else 128
def hi3 (n0 : Nat) : Nat := if n0 = 237 then 159 else 191

theorem model_cond3 (b0 b1 : UInt8) :
    ((if b0 == 0xE0 then (0xA0 : UInt8) else 0x80) ≤ b1 && b1 ≤ (if b0 == 0xED then (0x9F : UInt8) else 0xBF)) =
      decide (lo3 b0.toNat ≤ b1.toNat ∧ b1.toNat ≤ hi3 b0.toNat) := by
  by_cases hE0 : b0 = 0xE0
  · subst hE0; simp [lo3, hi3, UInt8.le_iff_toNat_le]
  · by_cases hED : b0 = 0xED
    · subst hED; simp [lo3, hi3, UInt8.le_iff_toNat_le]
    · have n1 : b0.toNat ≠ 224 := fun h => hE0 (by apply UInt8.toNat_inj.mp; simpa using h)
      have n2 : b0.toNat ≠ 237 := fun h => hED (by apply UInt8.toNat_inj.mp; simpa using h)
      have c1 : (b0 == 0xE0) = false := by simpa using hE0
      have c2 : (b0 == 0xED) = false := by simpa using hED
      simp [lo3, hi3, n1, n2, c1, c2, UInt8.le_iff_toNat_le]

theorem spec_cond3 (b0 b1 : UInt8) :
    (if b0 == 0xE0 then 0xA0 ≤ b1 && b1 ≤ 0xBF else if b0 == 0xED then 0x80 ≤ b1 && b1 ≤ 0x9F else Spec.cont b1) =
      decide (lo3 b0.toNat ≤ b1.toNat ∧ b1.toNat ≤ hi3 b0.toNat) := by
  by_cases hE0 : b0 = 0xE0
  · subst hE0; simp [lo3, hi3, UInt8.le_iff_toNat_le]
  · by_cases hED : b0 = 0xED
    · subst hED; simp [lo3, hi3, UInt8.le_iff_toNat_le]
    · have n1 : b0.toNat ≠ 224 := fun h => hE0 (by apply UInt8.toNat_inj.mp; simpa using h)
      have n2 : b0.toNat ≠ 237 := fun h => hED (by apply UInt8.toNat_inj.mp; simpa using h)
      have c1 : (b0 == 0xE0) = false := by simpa using hE0
      have c2 : (b0 == 0xED) = false := by simpa using hED
      simp [lo3, hi3, n1, n2, c1, c2, Spec.cont, UInt8.le_iff_toNat_le]

theorem step_three (b0 : UInt8) (rest : List UInt8) (h1 : 224 ≤ b0.toNat) (h2 : b0.toNat ≤ 239) :
    (utf8Encode (decodeRuneL (b0 :: rest)).1, (decodeRuneL (b0 :: rest)).2) = stepSpec (b0 :: rest) := by
  have hnlt : ¬ b0 < 0x80 := by rw [UInt8.lt_iff_toNat_lt]; simp; omega
  have hc2 : (0xC2 ≤ b0 && b0 ≤ 0xDF) = false := by simp [UInt8.le_iff_toNat_le]; omega
  have hc3 : (0xE0 ≤ b0 && b0 ≤ 0xEF) = true := by simp [UInt8.le_iff_toNat_le]; omega
  simp only [decodeRuneL, hnlt, if_false, hc2, Bool.false_eq_true, hc3, if_true, stepSpec, wellFormedLen]
  match rest with
  | [] => simp [enc_fffd]
  | [b1] => simp [enc_fffd]
  | b1 :: b2 :: rest =>
    simp only [model_cond3, spec_cond3]
    by_cases hok : (lo3 b0.toNat ≤ b1.toNat ∧ b1.toNat ≤ hi3 b0.toNat)
    · by_cases hb2 : isCont b2 = true
      · have hb2' : Spec.cont b2 = true := by rw [cont_iff]; exact (isCont_iff b2).mp hb2
        obtain ⟨c1, c2⟩ := (isCont_iff b2).mp hb2
        simp only [hok, and_self, decide_true, Bool.true_and, Bool.and_self, hb2, hb2', if_true]
        have ht : (b0 :: b1 :: b2 :: rest).take 3 = [b0, b1, b2] := rfl
        rw [ht]
        obtain ⟨o1, o2⟩ := hok
        unfold lo3 at o1
        unfold hi3 at o2
        unfold utf8Encode
        have r1 : ¬ ((b0.toNat - 0xE0) * 4096 + (b1.toNat - 0x80) * 64 + (b2.toNat - 0x80) < 0x80) := by split at o1 <;> omega
        have r2 : ¬ ((b0.toNat - 0xE0) * 4096 + (b1.toNat - 0x80) * 64 + (b2.toNat - 0x80) < 0x800) := by split at o1 <;> omega
        have r3 : ((0xD800 ≤ (b0.toNat - 0xE0) * 4096 + (b1.toNat - 0x80) * 64 + (b2.toNat - 0x80) &&
            (b0.toNat - 0xE0) * 4096 + (b1.toNat - 0x80) * 64 + (b2.toNat - 0x80) < 0xE000) ||
            (b0.toNat - 0xE0) * 4096 + (b1.toNat - 0x80) * 64 + (b2.toNat - 0x80) > 0x10FFFF) = false := by
          simp only [Bool.or_eq_false_iff, Bool.and_eq_false_iff, decide_eq_false_iff_not]
          split at o1 <;> split at o2 <;> omega
        have r4 : (b0.toNat - 0xE0) * 4096 + (b1.toNat - 0x80) * 64 + (b2.toNat - 0x80) < 0x10000 := by split at o2 <;> omega
        rw [if_neg r1, if_neg r2, r3]
        simp only [Bool.false_eq_true, if_false, r4, if_true]
        have e0 : UInt8.ofNat (0xE0 + ((b0.toNat - 0xE0) * 4096 + (b1.toNat - 0x80) * 64 + (b2.toNat - 0x80)) / 4096) = b0 := by
          apply ofNat_toNat'; split at o1 <;> split at o2 <;> omega
        have e1 : UInt8.ofNat (0x80 + ((b0.toNat - 0xE0) * 4096 + (b1.toNat - 0x80) * 64 + (b2.toNat - 0x80)) / 64 % 64) = b1 := by
          apply ofNat_toNat'; split at o1 <;> split at o2 <;> omega
        have e2 : UInt8.ofNat (0x80 + ((b0.toNat - 0xE0) * 4096 + (b1.toNat - 0x80) * 64 + (b2.toNat - 0x80)) % 64) = b2 := by
          apply ofNat_toNat'; split at o1 <;> split at o2 <;> omega
        rw [e0, e1, e2]
      · have hb2' : Spec.cont b2 = false := by
          cases h : Spec.cont b2
          · rfl
          · exact absurd ((isCont_iff b2).mpr ((cont_iff b2).mp h)) hb2
        simp [hb2, hb2', enc_fffd]
    · simp [hok, enc_fffd]

def lo4 (n0 : Nat) : Nat := if n0 = 240 then 144 else 128
def hi4 (n0 : Nat) : Nat := if n0 = 244 then 143 else 191

theorem model_cond4 (b0 b1 : UInt8) :
    ((if b0 == 0xF0 then (0x90 : UInt8) else 0x80) ≤ b1 && b1 ≤ (if b0 == 0xF4 then (0x8F : UInt8) else 0xBF)) =
      decide (lo4 b0.toNat ≤ b1.toNat ∧ b1.toNat ≤ hi4 b0.toNat) := by
  by_cases hF0 : b0 = 0xF0
  · subst hF0; simp [lo4, hi4, UInt8.le_iff_toNat_le]
  · by_cases hF4 : b0 = 0xF4
    · subst hF4; simp [lo4, hi4, UInt8.le_iff_toNat_le]
    · have n1 : b0.toNat ≠ 240 := fun h => hF0 (by apply UInt8.toNat_inj.mp; simpa using h)
      have n2 : b0.toNat ≠ 244 := fun h => hF4 (by apply UInt8.toNat_inj.mp; simpa using h)
      have c1 : (b0 == 0xF0) = false := by simpa using hF0
      have c2 : (b0 == 0xF4) = false := by simpa using hF4
      simp [lo4, hi4, n1, n2, c1, c2, UInt8.le_iff_toNat_le]

theorem spec_cond4 (b0 b1 : UInt8) :
    (if b0 == 0xF0 then 0x90 ≤ b1 && b1 ≤ 0xBF else if b0 == 0xF4 then 0x80 ≤ b1 && b1 ≤ 0x8F else Spec.cont b1) =
      decide (lo4 b0.toNat ≤ b1.toNat ∧ b1.toNat ≤ hi4 b0.toNat) := by
  by_cases hF0 : b0 = 0xF0
  · subst hF0; simp [lo4, hi4, UInt8.le_iff_toNat_le]
  · by_cases hF4 : b0 = 0xF4
    · subst hF4; simp [lo4, hi4, UInt8.le_iff_toNat_le]
    · have n1 : b0.toNat ≠ 240 := fun h => hF0 (by apply UInt8.toNat_inj.mp; simpa using h)
      have n2 : b0.toNat ≠ 244 := fun h => hF4 (by apply UInt8.toNat_inj.mp; simpa using h)
      have c1 : (b0 == 0xF0) = false := by simpa using hF0
      have c2 : (b0 == 0xF4) = false := by simpa using hF4
      simp [lo4, hi4, n1, n2, c1, c2, Spec.cont, UInt8.le_iff_toNat_le]

theorem cont_false_of (b : UInt8) (h : ¬ isCont b = true) : Spec.cont b = false := by
  cases hc : Spec.cont b
  · rfl
  · exact absurd ((isCont_iff b).mpr ((cont_iff b).mp hc)) h

theorem step_four (b0 : UInt8) (rest : List UInt8) (h1 : 240 ≤ b0.toNat) (h2 : b0.toNat ≤ 244) :
    (utf8Encode (decodeRuneL (b0 :: rest)).1, (decodeRuneL (b0 :: rest)).2) = stepSpec (b0 :: rest) := by
  have hnlt : ¬ b0 < 0x80 := by rw [UInt8.lt_iff_toNat_lt]; simp; omega
  have hc2 : (0xC2 ≤ b0 && b0 ≤ 0xDF) = false := by simp [UInt8.le_iff_toNat_le]; omega
  have hc3 : (0xE0 ≤ b0 && b0 ≤ 0xEF) = false := by simp [UInt8.le_iff_toNat_le]; omega
  have hc4 : (0xF0 ≤ b0 && b0 ≤ 0xF4) = true := by simp [UInt8.le_iff_toNat_le]; omega
  simp only [decodeRuneL, hnlt, if_false, hc2, hc3, Bool.false_eq_true, hc4, if_true, stepSpec, wellFormedLen]
  match rest with
  | [] => simp [enc_fffd]
  | [b1] => simp [enc_fffd]
  | [b1, b2] => simp [enc_fffd]
  | b1 :: b2 :: b3 :: rest =>
    simp only [model_cond4, spec_cond4]
    by_cases hok : (lo4 b0.toNat ≤ b1.toNat ∧ b1.toNat ≤ hi4 b0.toNat)
    · by_cases hb2 : isCont b2 = true
      · by_cases hb3 : isCont b3 = true
        · have hb2' : Spec.cont b2 = true := by rw [cont_iff]; exact (isCont_iff b2).mp hb2
          have hb3' : Spec.cont b3 = true := by rw [cont_iff]; exact (isCont_iff b3).mp hb3
          obtain ⟨c1, c2⟩ := (isCont_iff b2).mp hb2
          obtain ⟨d1, d2⟩ := (isCont_iff b3).mp hb3
          simp only [hok, and_self, decide_true, Bool.true_and, Bool.and_self, hb2, hb2', hb3, hb3', if_true]
          have ht : (b0 :: b1 :: b2 :: b3 :: rest).take 4 = [b0, b1, b2, b3] := rfl
          rw [ht]
          obtain ⟨o1, o2⟩ := hok
          unfold lo4 at o1
          unfold hi4 at o2
          unfold utf8Encode
          have r1 : ¬ ((b0.toNat - 0xF0) * 262144 + (b1.toNat - 0x80) * 4096 + (b2.toNat - 0x80) * 64 + (b3.toNat - 0x80) < 0x80) := by split at o1 <;> omega
          have r2 : ¬ ((b0.toNat - 0xF0) * 262144 + (b1.toNat - 0x80) * 4096 + (b2.toNat - 0x80) * 64 + (b3.toNat - 0x80) < 0x800) := by split at o1 <;> omega
          have r3 : ((0xD800 ≤ (b0.toNat - 0xF0) * 262144 + (b1.toNat - 0x80) * 4096 + (b2.toNat - 0x80) * 64 + (b3.toNat - 0x80) &&
              (b0.toNat - 0xF0) * 262144 + (b1.toNat - 0x80) * 4096 + (b2.toNat - 0x80) * 64 + (b3.toNat - 0x80) < 0xE000) ||
              (b0.toNat - 0xF0) * 262144 + (b1.toNat - 0x80) * 4096 + (b2.toNat - 0x80) * 64 + (b3.toNat - 0x80) > 0x10FFFF) = false := by
            simp only [Bool.or_eq_false_iff, Bool.and_eq_false_iff, decide_eq_false_iff_not]
            split at o1 <;> split at o2 <;> omega
          have r4 : ¬ ((b0.toNat - 0xF0) * 262144 + (b1.toNat - 0x80) * 4096 + (b2.toNat - 0x80) * 64 + (b3.toNat - 0x80) < 0x10000) := by split at o1 <;> omega
          rw [if_neg r1, if_neg r2, r3]
          simp only [Bool.false_eq_true, if_false, r4]
          have e0 : UInt8.ofNat (0xF0 + ((b0.toNat - 0xF0) * 262144 + (b1.toNat - 0x80) * 4096 + (b2.toNat - 0x80) * 64 + (b3.toNat - 0x80)) / 262144) = b0 := by
            apply ofNat_toNat'; split at o1 <;> split at o2 <;> omega
          have e1 : UInt8.ofNat (0x80 + ((b0.toNat - 0xF0) * 262144 + (b1.toNat - 0x80) * 4096 + (b2.toNat - 0x80) * 64 + (b3.toNat - 0x80)) / 4096 % 64) = b1 := by
            apply ofNat_toNat'; split at o1 <;> split at o2 <;> omega
          have e2 : UInt8.ofNat (0x80 + ((b0.toNat - 0xF0) * 262144 + (b1.toNat - 0x80) * 4096 + (b2.toNat - 0x80) * 64 + (b3.toNat - 0x80)) / 64 % 64) = b2 := by
            apply ofNat_toNat'; split at o1 <;> split at o2 <;> omega
          have e3 : UInt8.ofNat (0x80 + ((b0.toNat - 0xF0) * 262144 + (b1.toNat - 0x80) * 4096 + (b2.toNat - 0x80) * 64 + (b3.toNat - 0x80)) % 64) = b3 := by
            apply ofNat_toNat'; split at o1 <;> split at o2 <;> omega
          rw [e0, e1, e2, e3]
        · simp [hb3, cont_false_of b3 hb3, enc_fffd]
      · simp [hb2, cont_false_of b2 hb2, enc_fffd]
    · simp [hok, enc_fffd]

theorem step_invalid (b0 : UInt8) (rest : List UInt8) (h : (128 ≤ b0.toNat ∧ b0.toNat ≤ 193) ∨ 245 ≤ b0.toNat) :
    (utf8Encode (decodeRuneL (b0 :: rest)).1, (decodeRuneL (b0 :: rest)).2) = stepSpec (b0 :: rest) := by
  have hnlt : ¬ b0 < 0x80 := by rw [UInt8.lt_iff_toNat_lt]; simp; omega
  have hc2 : (0xC2 ≤ b0 && b0 ≤ 0xDF) = false := by simp [UInt8.le_iff_toNat_le]; omega
  have hc3 : (0xE0 ≤ b0 && b0 ≤ 0xEF) = false := by simp [UInt8.le_iff_toNat_le]; omega
  have hc4 : (0xF0 ≤ b0 && b0 ≤ 0xF4) = false := by simp [UInt8.le_iff_toNat_le]; omega
  simp [decodeRuneL, hnlt, hc2, hc3, hc4, stepSpec, wellFormedLen, enc_fffd]

/-- decode + re-encode is one step of the specification's sanitiser -/
theorem step_spec (b0 : UInt8) (rest : List UInt8) :
    (utf8Encode (decodeRuneL (b0 :: rest)).1, (decodeRuneL (b0 :: rest)).2) = stepSpec (b0 :: rest) := by
  have hlt := b0.toNat_lt
  by_cases h1 : b0.toNat < 128
  · exact step_ascii b0 rest h1
  · by_cases h2 : b0.toNat ≤ 193
    · exact step_invalid b0 rest (.inl ⟨by omega, h2⟩)
    · by_cases h3 : b0.toNat ≤ 223
      · exact step_two b0 rest (by omega) h3
      · by_cases h4 : b0.toNat ≤ 239
        · exact step_three b0 rest (by omega) h4
        · by_cases h5 : b0.toNat ≤ 244
          · exact step_four b0 rest (by omega) h5
          · exact step_invalid b0 rest (.inr (by omega))

theorem wellFormedLen_pos {l : List UInt8} {n : Nat} (h : wellFormedLen l = some n) : 1 ≤ n ∧ n ≤ 4 := by
  unfold wellFormedLen at h
  split at h
  · cases h
  · (repeat' split at h) <;> simp at h <;> omega

theorem stepSpec_pos (l : List UInt8) : 1 ≤ (stepSpec l).2 := by
  unfold stepSpec
  cases h : wellFormedLen l with
  | none => simp
  | some n => exact (wellFormedLen_pos h).1

/-- the specification's sanitiser, one step at a time -/
theorem sanitize_step (fuel : Nat) (b : UInt8) (rest : List UInt8) :
    Spec.sanitize (fuel + 1) (b :: rest) = (stepSpec (b :: rest)).1 ++ Spec.sanitize fuel ((b :: rest).drop (stepSpec (b :: rest)).2) := by
  simp only [Spec.sanitize, stepSpec]
  cases wellFormedLen (b :: rest) <;> rfl

/-- the model's loop produces exactly what the specification's sanitiser produces on the remaining input -/
theorem sanitizeLoop_spec (data : Bytes) : ∀ (fuel i : Nat) (out : Bytes) (fuel2 : Nat),
    i ≤ data.size → data.size - i ≤ fuel → data.size - i + 1 ≤ fuel2 →
    sanitizeLoop data fuel i out = out ++ (Spec.sanitize fuel2 (data.toList.drop i)).toArray := by
  intro fuel
  induction fuel with
  | zero =>
    intro i out fuel2 hi hf _
    have : i = data.size := by omega
    subst this
    have hnil : data.toList.drop data.size = [] := List.drop_eq_nil_of_le (by simp)
    cases fuel2 <;> simp [sanitizeLoop, hnil, Spec.sanitize]
  | succ fuel ih =>
    intro i out fuel2 hi hf hf2
    simp only [sanitizeLoop]
    by_cases hlt : i < data.size
    · simp only [hlt, if_true]
      obtain ⟨fuel2, rfl⟩ : ∃ f, fuel2 = f + 1 := ⟨fuel2 - 1, by omega⟩
      have hat : Ragel.At data i (data.toList.drop i) := ⟨hi, rfl⟩
      obtain ⟨b, rest, hl⟩ : ∃ b rest, data.toList.drop i = b :: rest := by
        cases hd : data.toList.drop i with
        | nil => have := (congrArg List.length hd); simp at this; omega
        | cons b rest => exact ⟨b, rest, rfl⟩
      rw [decodeRune_eq, hl, sanitize_step]
      have hs := step_spec b rest
      have hpos := stepSpec_pos (b :: rest)
      generalize hst : stepSpec (b :: rest) = st at hs hpos
      obtain ⟨bytes, n⟩ := st
      have h1 : utf8Encode (decodeRuneL (b :: rest)).1 = bytes := congrArg Prod.fst hs
      have h2 : (decodeRuneL (b :: rest)).2 = n := congrArg Prod.snd hs
      simp only [h1, h2]
      simp only at hpos
      by_cases hin : i + n ≤ data.size
      · rw [ih (i + n) _ fuel2 hin (by omega) (by omega)]
        rw [← hl, List.drop_drop]
        simp [Array.append_assoc]
      · -- a width that runs past the end cannot happen for a well-formed prefix; the loop then stops
        have hdrop : (b :: rest).drop n = [] := by
          apply List.drop_eq_nil_of_le
          have : (b :: rest).length = data.size - i := by rw [← hl]; simp
          omega
        rw [hdrop]
        have hstop : ∀ f o, sanitizeLoop data f (i + n) o = o := by
          intro f o
          cases f with
          | zero => rfl
          | succ f => simp only [sanitizeLoop]; have : ¬ (i + n < data.size) := by omega
                      simp [this]
        rw [hstop]
        cases fuel2 <;> simp [Spec.sanitize]
    · have : i = data.size := by omega
      subst this
      have hnil : data.toList.drop data.size = [] := List.drop_eq_nil_of_le (by simp)
      cases fuel2 <;> simp [hnil, Spec.sanitize]

/-- `StdLibCompatibleStringBytes(s, buf)` = `buf` followed by the specification's sanitisation of `s` -/
theorem stdLibCompatibleStringBytes_spec (s buf : Bytes) :
    stdLibCompatibleStringBytes s buf = buf ++ (Spec.sanitizeAll s.toList).toArray := by
  have := sanitizeLoop_spec s s.size 0 buf (s.toList.length + 1) (by omega) (by omega) (by simp)
  simpa [stdLibCompatibleStringBytes, Spec.sanitizeAll] using this

theorem stdLibCompatibleString_spec (s : Bytes) :
    stdLibCompatibleString s = (Spec.sanitizeAll s.toList).toArray := by
  simpa [stdLibCompatibleString] using stdLibCompatibleStringBytes_spec s #[]

end RJson.Utf8
