import RJson.Proofs.SkipValue
/-!
# The whole run of the abstract skip machine = `Spec.valueEnd`
-/
namespace RJson.Abs
open RJson.Ragel RJson.Spec

theorem vctx_top (k : Kind) : VCtx k .top := ⟨rfl, by decide, rfl⟩

theorem md_skip : md .skip = some Gen.skipMaxDepth := rfl

/-- after the value, at top level, the run ends at once: result `ok` at the position after the value -/
theorem top_after_finish {τ} (data : Bytes) (h : Handler τ) (fuel p : Nat) (r : Regs τ) (rest : List UInt8)
    (hat : At data p rest) (hp : r.p = p) (hf : rest.length + 1 ≤ fuel) :
    contL (machine .skip) data h fuel ⟨.top, .after⟩ [] r = r.finish := by
  cases rest with
  | nil =>
    rw [contL_nil (machine .skip) data h _ _ _ r p hp hat]
    rfl
  | cons b t =>
    rw [contL_cons (machine .skip) data h _ _ _ r p b t hp hat]
    obtain ⟨hb, _, _⟩ := hat.cons_inv
    obtain ⟨fuel, rfl⟩ : ∃ f, fuel = f + 1 := ⟨fuel - 1, by omega⟩
    exact loopL_exit (machine .skip) data h fuel _ [] r b (by rw [hp]; exact hb) rfl

/-- **the abstract skip machine computes the scanner's result** (nesting limited by `skipMaxDepth`): on success
    the run ends without error in front of exactly the input the scanner left over -/
theorem abs_skip_scan {τ} (data : Bytes) (hsm : Small data) (h : Handler τ) (dst : Bytes) (hs : τ) :
    match scanValue (some Gen.skipMaxDepth) (2 * data.toList.length + 2) 0 (skipWs data.toList) with
    | some rest => (runL (machine .skip) data h dst hs).kind = .ok ∧
        ∃ p : Nat, At data p rest ∧ (runL (machine .skip) data h dst hs).p = (p : Int)
    | none => ∃ e, (runL (machine .skip) data h dst hs).kind = .err e := by
  rw [runL_eq_contL]
  have hstart : (machine .skip).start = ⟨.top, .want true⟩ := rfl
  rw [hstart]
  have hws : ∀ b, isWs b = true → (machine .skip).step ⟨.top, .want true⟩ b = ([], some ⟨.top, .want true⟩) := by
    intro b hw; simp [machine, step, hw]
  obtain ⟨f1, p1, hat1, hf1, e1⟩ := ws_loop (machine .skip) _ hws data h hsm data.toList (fuelFor data) 0 []
    (initRegs dst hs) (At.start data) rfl (by simp [fuelFor]; omega)
  rw [e1]
  have hlen := skipWs_length_le' data.toList
  cases hsk : skipWs data.toList with
  | nil =>
    rw [hsk] at hat1
    rw [scanValue_nil]
    simp only []
    rw [contL_nil (machine .skip) data h _ _ _ _ p1 rfl hat1]
    exact eof_stops .skip _ data h _ rfl
  | cons b rest =>
    rw [hsk] at hat1 hf1 hlen
    have hnws := skipWs_cons_of _ b rest hsk
    have hstep : (machine .skip).step ⟨.top, .want true⟩ b = startValue .skip .top b := by
      simp [machine, step, hnws]
    have hV := (skip_goals .skip (by decide) data h hsm (2 * data.toList.length + 2)).1 .top (vctx_top .skip) _ b rest hstep
      f1 p1 [] ({ initRegs dst hs with p := (p1 : Int) } : Regs τ) hat1 rfl rfl hf1 (by omega)
    rw [md_skip] at hV
    simp only [List.length_nil] at hV
    cases hsv : scanValue (some Gen.skipMaxDepth) (2 * data.toList.length + 2) 0 (b :: rest) with
    | none =>
      rw [hsv] at hV
      exact hV
    | some r' =>
      rw [hsv] at hV
      obtain ⟨f2, p2, hat2, hf2, e2⟩ := hV
      simp only []
      rw [e2, top_after_finish data h f2 p2 _ r' hat2 rfl hf2]
      exact ⟨rfl, p2, hat2, rfl⟩

/-- in terms of `Spec.valueEnd` -/
theorem abs_skip_spec {τ} (data : Bytes) (hsm : Small data) (h : Handler τ) (dst : Bytes) (hs : τ) :
    match valueEnd (some Gen.skipMaxDepth) data.toList with
    | some n => (runL (machine .skip) data h dst hs).kind = .ok ∧ (runL (machine .skip) data h dst hs).p = (n : Int)
    | none => ∃ e, (runL (machine .skip) data h dst hs).kind = .err e := by
  have key := abs_skip_scan data hsm h dst hs
  simp only [valueEnd]
  cases hsv : scanValue (some Gen.skipMaxDepth) (2 * data.toList.length + 2) 0 (skipWs data.toList) with
  | none => rw [hsv] at key; exact key
  | some rest =>
    rw [hsv] at key
    obtain ⟨hk, p, hat, hp⟩ := key
    refine ⟨hk, ?_⟩
    have hl := hat.length
    have hle := hat.le
    simp only [Array.length_toList]
    rw [hp]
    omega

end RJson.Abs
