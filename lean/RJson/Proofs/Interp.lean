import RJson.Model.Ragel
/-!
# Generic theorems about the `-G2` interpreter (valid for every machine table)

`watch h` instruments a handler: it records the first error the handler returns and whether the handler is
ever called again afterwards. `run_watch` shows, for every machine, input and handler: the handler is never
called again after it returned an error, and the run then returns that very error (`Kind.herr id`).
This is C09 at the level of the interpreter; the tie to the code is the translator's recognition of
`try_handler` / `try_handler_simple` (the error value is returned as it is) plus the simulation certificates.
-/
namespace RJson.Ragel

structure Watch (τ : Type) where
  inner : τ
  failed : Option Nat := none
  again : Bool := false

def watch {τ} (h : Handler τ) : Handler (Watch τ) := fun w f s =>
  let r := h w.inner f s
  match w.failed with
  | some id => ({ inner := r.1, failed := some id, again := true }, r.2.1, r.2.2)
  | none => ({ inner := r.1, failed := r.2.2, again := w.again }, r.2.1, r.2.2)

def WInv {τ} (w : Watch τ) : Prop := w.failed = none ∧ w.again = false

def WPost {τ} (res : Result (Watch τ)) : Prop :=
  res.hs.again = false ∧ ∀ id, res.hs.failed = some id → res.kind = .herr id

theorem wpost_of_inv {τ} {res : Result (Watch τ)} (h : WInv res.hs) : WPost res :=
  ⟨h.2, fun id hid => by rw [h.1] at hid; cases hid⟩

theorem watch_step {τ} (h : Handler τ) (w : Watch τ) (f s : Bytes) (hw : WInv w) :
    (watch h w f s).1.again = false ∧ (watch h w f s).1.failed = (watch h w f s).2.2 := by
  obtain ⟨h1, h2⟩ := hw
  simp [watch, h1, h2]

theorem wpost_stop {τ} {r : Regs (Watch τ)} (hr : WInv r.hs) (k : Kind) (p : Int) (dst : Bytes) : WPost (r.stop k p dst) :=
  wpost_of_inv (res := r.stop k p dst) hr

theorem wpost_finish {τ} {r : Regs (Watch τ)} (hr : WInv r.hs) : WPost r.finish :=
  wpost_of_inv (res := r.finish) hr

def ActR.good {τ} : ActR (Watch τ) → Prop
  | .cont r' => WInv r'.hs
  | .stop res => WPost res

def ActsR.good {σ τ} : ActsR σ (Watch τ) → Prop
  | .stop res => WPost res
  | .next _ _ r' => WInv r'.hs

theorem handler_tail_good {τ} (hs' : Watch τ) (e : Option Nat) (hag : hs'.again = false) (hfl : hs'.failed = e)
    (r : Regs (Watch τ)) (p : Int) (k : ActR (Watch τ)) (hk : WInv hs' → k.good)
    (hstop : ∀ id, e = some id → k = .stop (({ r with hs := hs', ncalls := r.ncalls + 1 } : Regs (Watch τ)).stop (.herr id) p)) :
    k.good := by
  cases e with
  | none => exact hk ⟨hfl, hag⟩
  | some id =>
    rw [hstop id rfl]
    exact ⟨hag, fun id' hid => by
      simp only [Regs.stop] at hid ⊢
      rw [hfl] at hid; cases hid; rfl⟩

theorem execSimple_watch {τ} (data : Bytes) (hf : Bool) (h : Handler τ) (a : SAct) (r : Regs (Watch τ)) (hr : WInv r.hs) :
    (execSimple data hf (watch h) a r).good := by
  cases a with
  | handler retP gNeg gNz gRange newP flo fhi =>
    simp only [execSimple]
    split
    · exact wpost_stop hr _ _ _
    · next f suffix _ =>
      obtain ⟨hag, hfl⟩ := watch_step h r.hs f suffix hr
      generalize watch h r.hs f suffix = res at hag hfl
      obtain ⟨hs', pp, e⟩ := res
      simp only at hag hfl ⊢
      cases e with
      | some id =>
        exact ⟨hag, fun id' hid => by
          simp only [Regs.stop] at hid ⊢
          rw [hfl] at hid; cases hid; rfl⟩
      | none =>
        have hinv : WInv hs' := ⟨hfl, hag⟩
        simp only []
        split
        · exact wpost_finish (r := { r with hs := hs', ncalls := r.ncalls + 1, p := _, err := _ }) hinv
        · split
          · split
            · exact wpost_finish (r := { r with hs := hs', ncalls := r.ncalls + 1, p := _, err := _ }) hinv
            · exact hinv
          · exact hinv
  | handlerSimple retP flo fhi =>
    simp only [execSimple]
    split
    · exact wpost_stop hr _ _ _
    · next f suffix _ =>
      obtain ⟨hag, hfl⟩ := watch_step h r.hs f suffix hr
      generalize watch h r.hs f suffix = res at hag hfl
      obtain ⟨hs', pp, e⟩ := res
      simp only at hag hfl ⊢
      cases e with
      | some id =>
        exact ⟨hag, fun id' hid => by
          simp only [Regs.stop] at hid ⊢
          rw [hfl] at hid; cases hid; rfl⟩
      | none => exact ⟨hfl, hag⟩
  | errReturn e => exact wpost_of_inv (res := { r.stop (.err e) r.p #[] with val := false }) hr
  | errReturnByte => simp only [execSimple]; split <;> exact wpost_stop hr _ _ _
  | setErr e => exact hr
  | brk => exact wpost_finish (r := { r with p := _ }) hr
  | floatDec =>
    simp only [execSimple]
    split
    · exact wpost_stop hr _ _ _
    · exact hr
    · exact wpost_finish (r := { r with p := _, err := _ }) hr
  | floatExp =>
    simp only [execSimple]
    split
    · exact wpost_stop hr _ _ _
    · exact hr
    · exact wpost_finish (r := { r with p := _, err := _ }) hr
  | fieldStart => exact hr
  | fieldEnd => exact hr
  | setBool b => exact hr
  | segStart => exact hr
  | appendSeg =>
    simp only [execSimple]
    split
    · exact wpost_stop hr _ _ _
    · exact hr
  | appendByte c => exact hr
  | unescapeU =>
    simp only [execSimple]
    split
    · split
      · split <;> exact wpost_stop hr _ _ _
      · split <;> exact hr
    · exact wpost_stop hr _ _ _

theorem runEof_watch {τ} (data : Bytes) (hf : Bool) (h : Handler τ) :
    ∀ (acts : List SAct) (r : Regs (Watch τ)), WInv r.hs → WPost (runEof data hf (watch h) acts r) := by
  intro acts
  induction acts with
  | nil => intro r hr; exact wpost_finish hr
  | cons a rest ih =>
    intro r hr
    have := execSimple_watch data hf h a r hr
    simp only [runEof]
    generalize execSimple data hf (watch h) a r = k at this
    cases k with
    | stop res => exact this
    | cont r' => exact ih r' this

theorem execActsL_watch {σ τ} (M : PDM σ) (data : Bytes) (h : Handler τ) :
    ∀ (acts : List (Act σ)) (tgt : Option σ) (st : List σ) (r : Regs (Watch τ)), WInv r.hs →
      (execActsL M data (watch h) acts tgt st r).good := by
  intro acts
  induction acts with
  | nil => intro tgt st r hr; exact hr
  | cons a rest ih =>
    intro tgt st r hr
    cases a with
    | s a =>
      simp only [execActsL]
      split
      · exact wpost_stop hr _ _ _
      · have := execSimple_watch data M.hasField h a r hr
        generalize execSimple data M.hasField (watch h) a r = k at this
        cases k with
        | stop res => exact this
        | cont r' => exact ih tgt st r' this
    | call lim rs en =>
      simp only [execActsL]
      split
      · exact wpost_finish (r := { r with p := _, err := _ }) hr
      · exact ih _ _ r hr
    | ret =>
      simp only [execActsL]
      cases st with
      | nil => exact wpost_stop hr _ _ _
      | cons top st' => exact ih _ _ r hr

theorem loopL_watch {σ τ} (M : PDM σ) (data : Bytes) (h : Handler τ) :
    ∀ (fuel : Nat) (cs : σ) (st : List σ) (r : Regs (Watch τ)), WInv r.hs →
      WPost (loopL M data (watch h) fuel cs st r) := by
  intro fuel
  induction fuel with
  | zero => intro cs st r hr; exact wpost_stop hr _ _ _
  | succ fuel ih =>
    intro cs st r hr
    simp only [loopL]
    cases hgb : getByte data r.p with
    | none => exact wpost_stop hr _ _ _
    | some b =>
      simp only []
      have := execActsL_watch M data h (M.step cs b).1 (M.step cs b).2 st r hr
      generalize execActsL M data (watch h) (M.step cs b).1 (M.step cs b).2 st r = k at this
      cases k with
      | stop res => exact this
      | next tgt st' r' =>
        cases tgt with
        | none => exact wpost_finish this
        | some n =>
          simp only []
          split
          · exact runEof_watch data M.hasField h _ _ this
          · exact ih _ _ _ this

/-- C09 for the interpreter: after the handler returned an error it is never called again, and the run
    returns that very error -/
theorem run_watch {σ τ} (M : PDM σ) (data : Bytes) (h : Handler τ) (dst : Bytes) (hs : τ) :
    let res := runL M data (watch h) dst { inner := hs }
    res.hs.again = false ∧ ∀ id, res.hs.failed = some id → res.kind = .herr id := by
  simp only [runL]
  split
  · exact runEof_watch data M.hasField h _ _ ⟨rfl, rfl⟩
  · exact loopL_watch M data h _ _ _ _ ⟨rfl, rfl⟩

end RJson.Ragel
